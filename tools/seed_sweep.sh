#!/bin/sh
# Re-run the owning check (quick tier) against every seeded change; one line per seed.
#   tools/seed_sweep.sh [seed-number]
HERE="$(cd "$(dirname "$0")/.." && pwd)"
S="${1:-1}"
for d in "$HERE"/seeded/*/; do
  n="$(basename "$d")"; id="${n%%-*}"
  out="$(VERIF_SEED=$S "$HERE/tools/mutant.sh" "$d/patch.diff" "$id" --tier quick 2>&1)"
  rc="$(echo "$out" | sed -n 's/^mutant exit=//p')"
  sig="$(echo "$out" | grep -m1 -E '^\s+\[' | sed 's/^\s*//' | cut -c1-70)"
  printf '%-55s exit=%s %s\n' "$n" "$rc" "$sig"
done
